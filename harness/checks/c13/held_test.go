package c13

import (
	"bytes"
	"fmt"
	"os"
	"strings"
	"sync"
	"testing"
	"time"

	"perkeep.org/pkg/blob"
	"perkeep.org/pkg/blobserver"
	"perkeep.org/pkg/blobserver/diskpacked"
	"pgregory.net/rapid"

	"verifharness/internal/evid"
	"verifharness/internal/vcompose"
	"verifharness/internal/vgen"
	"verifharness/internal/vmodel"
	"verifharness/internal/vstore"
)

// TestFaultHeldWhileOtherClientWrites: a receive is stopped right in front of one of its lower-layer
// calls (a slow disk, a slow index), which will then fail; while it is stopped, another client uploads
// other blobs. The failing call may only fail ITS receive: the other client's acknowledged blobs must be
// there and intact afterwards - in the running store, and after the store's own recovery - whatever the
// failed receive rolls back.
func TestFaultHeldWhileOtherClientWrites(t *testing.T) {
	evid.Check(t, 300, 2000, func(t *rapid.T) {
		root := rapid.SampledFrom([]string{"diskpacked", "diskpacked", "filesvfs", "blobpacked", "encrypt", "replica", "shard", "cond", "namespace", "overlay"}).Draw(t, "root")
		tree := vcompose.GenTree(t, 2, root)
		pool := vgen.GenPool(t, 3, 5, false)
		if !treeCaps(tree).Receive {
			t.Skip("read-only tree")
		}
		ia := rapid.IntRange(0, len(pool)-1).Draw(t, "blobOfTheFailingReceive")
		gateMu.Lock()
		defer gateMu.Unlock()

		type outcome struct {
			addrs    []string
			violated string
			inconcl  string
			reached  bool
			errA     error
		}
		runOnce := func(failAddr string, beh vstore.Behaviour) (out outcome) {
			dir, err := os.MkdirTemp("", "verif-c13-held-")
			if err != nil {
				out.inconcl = err.Error()
				return
			}
			defer os.RemoveAll(dir)
			defer waitNoMetaRollup()
			env := vstore.NewEnv()
			b, err := vcompose.Build(env, dir, tree)
			if err != nil {
				out.inconcl = fmt.Sprintf("harness: cannot build %s: %v", tree, err)
				return
			}
			defer b.Release()
			stableKeys = map[string]bool{}
			for _, pb := range pool {
				stableKeys[pb.Ref.String()] = true
			}
			model := vmodel.New()
			for _, pb := range pool {
				model.Know(pb.Ref, pb.Data)
			}
			counts := map[string]int{}
			var held *vstore.Event
			reached, release := make(chan struct{}), make(chan struct{})
			inA := true
			env.Match = func(e *vstore.Event) vstore.Behaviour {
				a := addrOf(e, counts)
				if failAddr == "" {
					if inA {
						out.addrs = append(out.addrs, a)
					}
					return vstore.OK
				}
				if a == failAddr && held == nil {
					held = e
					return beh
				}
				return vstore.OK
			}
			env.YieldHook = func(e *vstore.Event) {
				if e == held {
					close(reached)
					<-release
				}
			}
			recv := func(pb vgen.Blob) error {
				sb, err := blobserver.Receive(ctx, b.Root, pb.Ref, bytes.NewReader(pb.Data))
				if err == nil && (sb.Ref != pb.Ref || int(sb.Size) != len(pb.Data)) {
					return fmt.Errorf("receive of %s returned %v", pb, sb)
				}
				return err
			}
			if failAddr == "" {
				// dry run: which lower-layer calls does the receive of blob A make
				if err := recv(pool[ia]); err != nil {
					out.violated = fmt.Sprintf("fault-free receive of %s failed: %v", pool[ia], err)
				}
				return
			}
			doneA := make(chan struct{})
			go func() {
				defer close(doneA)
				out.errA = recv(pool[ia])
			}()
			select {
			case <-reached:
				out.reached = true
			case <-doneA:
				return // the address was not reached this time (calls of composites are not ordered): nothing to judge
			case <-time.After(60 * time.Second):
				out.inconcl = "the receive neither reached the chosen lower-layer call nor returned within 60s"
				return
			}
			// the other client: every other pool blob, one after the other
			var others []vgen.Blob
			for i, pb := range pool {
				if i != ia {
					others = append(others, pb)
				}
			}
			errs := make([]error, len(others))
			var wg sync.WaitGroup
			wg.Add(1)
			go func() {
				defer wg.Done()
				for i, pb := range others {
					errs[i] = recv(pb)
				}
			}()
			otherDone := make(chan struct{})
			go func() { wg.Wait(); close(otherDone) }()
			select {
			case <-otherDone:
			case <-time.After(30 * time.Millisecond): // the store serialises writers behind the stopped receive: also fine
			}
			close(release)
			select {
			case <-otherDone:
			case <-time.After(60 * time.Second):
				out.inconcl = "the other client's receives did not return within 60s after the stopped call was released"
				return
			}
			<-doneA
			env.Match, env.YieldHook = nil, nil
			for i, pb := range others {
				if errs[i] != nil {
					out.violated = fmt.Sprintf("the other client's receive of %s failed with %v although the only injected fault was in the receive of %s", pb, errs[i], pool[ia])
					return
				}
				model.SetPresent(pb.Ref, pb.Data)
			}
			if out.errA == nil {
				model.SetPresent(pool[ia].Ref, pool[ia].Data)
			} else {
				model.SetMaybe(pool[ia].Ref, pool[ia].Data)
			}
			if err := model.Battery(ctx, b.Root, []blob.Ref{vgen.RefOf("sha224", []byte("never-stored"))}, 2); err != nil {
				out.violated = fmt.Sprintf("after the failed receive of %s (err %v) and the other client's acknowledged receives: %v", pool[ia], out.errA, err)
				return
			}
			// the store's own recovery must serve the same map
			switch tree.Type {
			case "diskpacked":
				b.Close()
				name := tree.KVName("dpindex")
				env.NewKV(name).WipeRaw()
				if err := diskpacked.Reindex(ctx, b.DiskDir(tree), true, vstore.KVConf(name)); err != nil {
					out.violated = fmt.Sprintf("diskpacked.Reindex after the episode failed: %v", err)
					return
				}
				if err := b.Reopen(); err != nil {
					out.violated = fmt.Sprintf("reopening after Reindex failed: %v", err)
					return
				}
				model.SetMaybe(pool[ia].Ref, pool[ia].Data)
				if err := model.Battery(ctx, b.Root, nil, 3); err != nil {
					out.violated = fmt.Sprintf("after rebuilding the index from the packs: %v", err)
				}
			}
			return
		}

		dry := runOnce("", vstore.OK)
		if dry.inconcl != "" {
			t.Fatalf("VERIF-INCONCLUSIVE: %s", dry.inconcl)
		}
		if dry.violated != "" {
			t.Fatalf("C13 harness: %s", dry.violated)
		}
		if len(dry.addrs) == 0 {
			t.Skip("the receive makes no lower-layer call")
		}
		// prefer the late calls of the receive (index rows, renames): what a rollback has to undo
		k := len(dry.addrs) - 1 - rapid.IntRange(0, min(3, len(dry.addrs)-1)).Draw(t, "fromTheEnd")
		addr := dry.addrs[k]
		beh := vstore.Fail
		if strings.HasPrefix(addr, "store:") && rapid.Bool().Draw(t, "performedButError") {
			beh = vstore.FailAfter
		}
		res := runOnce(addr, beh)
		evid.R.Eval()
		evid.R.Label("held/root=" + tree.Type)
		if res.inconcl != "" {
			t.Fatalf("VERIF-INCONCLUSIVE: %s", res.inconcl)
		}
		if !res.reached {
			evid.R.Label("held/address-not-reached")
			return
		}
		evid.R.Label("held/other-client-wrote-while-the-failing-call-was-stopped")
		evid.R.NonTrivial(evid.Hash("held", tree.String(), fmt.Sprint(pool), ia, addr, int(beh)))
		if res.violated != "" {
			t.Fatalf("C13 violated: %s\nconfiguration: %s\nstopped and failed lower-layer call (layer op key #occurrence): %s (%s)", res.violated, tree, addr, behName(beh))
		}
		if evid.R.WantSample(true) {
			evid.R.Sample(true, map[string]any{"kind": "fault-held-while-another-client-writes", "configuration": tree.String(), "stopped_and_failed_call": addr, "behaviour": behName(beh), "failing_receive_error": fmt.Sprint(res.errA)})
		}
	})
}
