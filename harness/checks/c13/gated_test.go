package c13

import (
	"fmt"
	"os"
	"strings"
	"sync"
	"sync/atomic"
	"testing"
	"time"

	"perkeep.org/pkg/blob"
	"pgregory.net/rapid"

	"verifharness/internal/evid"
	"verifharness/internal/vcompose"
	"verifharness/internal/vgen"
	"verifharness/internal/vstore"
	"verifharness/internal/vwatch"
)

// TestGatedStatFault makes the schedule-dependent part of "a failed multi-blob stat must not poison later
// stats" deterministic: the batch is larger than the package-level stat gate, every index lookup of the
// batch is held at the harness KV, the failing lookup is let through only once the gate is full (so the
// dispatch loop is parked on the gate), and its siblings are released after it has returned. Afterwards the
// gate must be back at its baseline and a healthy stat of the same batch must succeed.
func TestGatedStatFault(t *testing.T) {
	evid.Check(t, 25, 150, func(t *rapid.T) {
		typ := rapid.SampledFrom([]string{"diskpacked", "encrypt"}).Draw(t, "backend")
		gate := 20
		n := rapid.IntRange(gate+1, gate+25).Draw(t, "batch")
		failIdx := rapid.IntRange(0, gate-2).Draw(t, "failingLookup")
		var tree *vcompose.Node
		if typ == "diskpacked" {
			tree = &vcompose.Node{Type: "diskpacked", Int: 4096}
		} else {
			tree = &vcompose.Node{Type: "encrypt", Kids: []*vcompose.Node{{Type: "verif"}, {Type: "verif"}}}
		}
		gateMu.Lock()
		defer gateMu.Unlock()
		dir, err := os.MkdirTemp("", "verif-c13-gated-")
		if err != nil {
			t.Fatalf("VERIF-INCONCLUSIVE: %v", err)
		}
		defer os.RemoveAll(dir)
		env := vstore.NewEnv()
		b, err := vcompose.Build(env, dir, tree)
		if err != nil {
			t.Fatalf("harness: %v", err)
		}
		defer b.Release()
		var refs []blob.Ref
		for i := 0; i < n; i++ {
			refs = append(refs, vgen.RefOf("sha224", []byte(fmt.Sprintf("gated-%d-%d", n, i))))
		}
		failKey := refs[failIdx].String()
		before := gatesInUse()
		release := make(chan struct{})
		var once sync.Once
		var held atomic.Int32
		env.Match = func(e *vstore.Event) vstore.Behaviour {
			if e.Op == "get" && e.Key == failKey {
				return vstore.Fail
			}
			return vstore.OK
		}
		env.YieldHook = func(e *vstore.Event) {
			if e.Op != "get" || !strings.HasPrefix(e.Layer, "kv:") {
				return
			}
			if e.Key == failKey {
				// wait until the gate is full of held siblings (or give up after 300ms: smaller effective parallelism)
				dl := time.Now().Add(300 * time.Millisecond)
				for int(held.Load()) < gate-1 && time.Now().Before(dl) {
					time.Sleep(200 * time.Microsecond)
				}
				// the siblings are released shortly after this call has failed
				go func() {
					time.Sleep(20 * time.Millisecond)
					once.Do(func() { close(release) })
				}()
				return
			}
			held.Add(1)
			<-release
		}
		var statErr error
		wr := vwatch.Run(func() {
			statErr = b.Root.StatBlobs(ctx, refs, func(blob.SizedRef) error { return nil })
		})
		once.Do(func() { close(release) })
		env.YieldHook = nil
		env.Match = nil
		evid.R.Eval()
		evid.R.Label("gated/" + typ)
		if wr.TimedOut {
			if wr.Parked {
				t.Fatalf("C13 violated: %s", wr.Describe("StatBlobs with one failing index lookup"))
			}
			t.Fatalf("%s", wr.Describe("StatBlobs with one failing index lookup"))
		}
		if statErr == nil {
			t.Fatalf("C13 violated: StatBlobs of %d refs on %s returned nil although the index lookup of %s failed", n, typ, failKey)
		}
		// gate occupancy returns to the baseline
		dl := time.Now().Add(2 * time.Second)
		var after map[string]int
		for {
			after = gatesInUse()
			same := true
			for k, v := range after {
				if v != before[k] {
					same = false
				}
			}
			if same || time.Now().After(dl) {
				break
			}
			time.Sleep(time.Millisecond)
		}
		for k, v := range after {
			if v != before[k] {
				drainGates()
				t.Fatalf("C13 violated: after a failed stat of %d refs on %s (failing lookup #%d, %d sibling lookups in flight) the package-level %s stat gate has %d slots taken (was %d): later stats will block once it is exhausted", n, typ, failIdx, held.Load(), k, v, before[k])
			}
		}
		// and a healthy stat of the same batch succeeds
		wr = vwatch.Run(func() {
			statErr = b.Root.StatBlobs(ctx, refs, func(blob.SizedRef) error { return nil })
		})
		if wr.TimedOut && wr.Parked {
			t.Fatalf("C13 violated: %s", wr.Describe("healthy StatBlobs after a failed one"))
		}
		if wr.TimedOut {
			t.Fatalf("%s", wr.Describe("healthy StatBlobs after a failed one"))
		}
		if statErr != nil {
			t.Fatalf("C13 violated: healthy StatBlobs after the fault failed: %v", statErr)
		}
		nt := int(held.Load()) >= gate-1
		if evid.R.WantSample(false) {
			evid.R.Sample(false, map[string]any{"kind": "gated-stat-fault", "backend": typ, "batch": n, "failing_lookup": failIdx, "sibling_lookups_held": held.Load()})
		}
		if nt {
			evid.R.Label("gated/dispatch-loop-parked-on-gate")
			evid.R.NonTrivial(evid.Hash("gated", typ, n, failIdx))
		}
	})
}
