package c19

// Plain (non-rapid) regression tests of the shrunk cases behind the two fix:
// commits in /repo's pkg/server/sync.go.

import (
	"fmt"
	"testing"

	"verifharness/internal/evid"
	"verifharness/internal/vgen"
)

func handPool(n int) []vgen.Blob {
	var out []vgen.Blob
	for i := 0; i < n; i++ {
		d := []byte(fmt.Sprintf("C19 regression pool blob %d", i))
		if i == 0 {
			d = []byte{}
		}
		out = append(out, vgen.Blob{Ref: vgen.RefOf("sha224", d), Data: d, Class: "hand"})
	}
	return out
}

func runRegress(t *testing.T, name string, sc *scenario) {
	t.Helper()
	res := run(sc)
	evid.R.Eval()
	evid.R.Label("regression/" + name)
	if res.nontrivial() {
		evid.R.NonTrivial(evid.Hash("regress", sc.canonical()))
	}
	if res.Inconclusive != "" {
		t.Fatalf("VERIF-INCONCLUSIVE: %s\n%s", res.Inconclusive, res.describe(sc))
	}
	if res.Violation != "" {
		t.Fatalf("C19 violated (regression %s): %s\n%s", name, res.Violation, res.describe(sc))
	}
}

// 23a0d11: blobserverEnumerator never closed its channel; runSync("full") never returned.
func TestRegressFullSyncOnStartDoesNotPark(t *testing.T) {
	if evid.Replaying() {
		t.Skip()
	}
	for _, mode := range []string{"blockingFullSyncOnStart", "fullSyncOnStart"} {
		// empty source: constructor must return; blobs uploaded afterwards must be delivered by the regular loop
		runRegress(t, mode+"/empty-source", &scenario{Pool: handPool(2), CopierPool: 1, Mode: mode, Dest: "store", Wake: true, Steps: []step{
			{Kind: "upload", Blob: 1}, {Kind: "upload", Blob: 0},
		}})
		// restart with rows in the queue and a source that holds blobs
		runRegress(t, mode+"/restart-over-rows", &scenario{Pool: handPool(3), CopierPool: 2, Mode: mode, Dest: "store", Wake: false, Steps: []step{
			{Kind: "hold", Site: siteToReceive}, {Kind: "upload", Blob: 1}, {Kind: "upload", Blob: 2}, {Kind: "restart"}, {Kind: "upload", Blob: 0},
		}})
	}
}

// ad3c7ae: enqueue added the blob to the in-memory list before writing the row; after a failed
// write the retried upload was acknowledged as a duplicate without any durable row.
func TestRegressRetryAfterFailedEnqueueIsDurable(t *testing.T) {
	if evid.Replaying() {
		t.Skip()
	}
	runRegress(t, "retry-after-failed-enqueue", &scenario{Pool: handPool(2), CopierPool: 1, Mode: "queue", Dest: "store", Wake: true, Steps: []step{
		{Kind: "hold", Site: siteToReceive}, // the destination is slow: nothing gets copied meanwhile
		{Kind: "fault", Site: siteQSet, Beh: "error", N: 1},
		{Kind: "upload", Blob: 1}, // enqueue fails, the uploader sees the error
		{Kind: "upload", Blob: 1}, // the retry is acknowledged: from here on the delivery must survive a crash
		{Kind: "restart"},
	}})
}
