package c19

import (
	"encoding/json"
	"fmt"
	"os"
	"path/filepath"
	"sort"
	"strings"
	"testing"

	"perkeep.org/pkg/serverinit"
	"pgregory.net/rapid"

	"verifharness/internal/evid"
	"verifharness/internal/vhttp"
)

// TestGeneratedConfigsKeepSyncQueuesOnDisk: the durability half of C19 starts in the configuration
// perkeepd generates. For generated high-level configurations (storage x index x replication targets)
// every "sync" handler of the low-level configuration whose source is kept on disk and whose
// destination is a blob store must have a queue that survives a restart (not the in-memory sorted
// type): otherwise deliveries pending at shutdown are lost whatever the sync handler itself does.
// (The /bs/ -> /index/ sync with an in-memory index is exempt: that destination is rebuilt from
// scratch at every start.)
func TestGeneratedConfigsKeepSyncQueuesOnDisk(t *testing.T) {
	vhttp.HermeticEnv()
	evid.Check(t, 150, 600, func(t *rapid.T) {
		dir, err := os.MkdirTemp("", "verif-c19-cfg-")
		if err != nil {
			t.Fatalf("VERIF-INCONCLUSIVE: %v", err)
		}
		defer os.RemoveAll(dir)
		spec := vhttp.Spec{
			Storage: rapid.SampledFrom([]string{"memory", "localdisk", "localdisk", "diskpacked", "blobpacked"}).Draw(t, "storage"),
			Index:   rapid.SampledFrom([]string{"memory", "memory", "leveldb", "kv", "sqlite"}).Draw(t, "index"),
			Auth:    "userpass:u:p",
		}
		high, err := vhttp.HighLevel(spec, dir)
		if err != nil {
			t.Fatalf("harness: %v", err)
		}
		if spec.Storage != "memory" {
			for _, sub := range []string{"cache", "packed"} {
				os.MkdirAll(filepath.Join(dir, "blobs", sub), 0o700)
			}
		}
		var targets []string
		if rapid.Bool().Draw(t, "s3") {
			high.S3 = "key:secret:bucket" + rapid.SampledFrom([]string{"", "/sub/dir", ":s3.example.invalid"}).Draw(t, "s3Tail")
			targets = append(targets, "s3")
		}
		if rapid.Bool().Draw(t, "b2") {
			high.B2 = "acct:appkey:bucket" + rapid.SampledFrom([]string{"", "/dir"}).Draw(t, "b2Tail")
			targets = append(targets, "b2")
		}
		if rapid.Bool().Draw(t, "gcs") {
			high.GoogleCloudStorage = "clientid:clientsecret:refreshtoken:bucket" + rapid.SampledFrom([]string{"", "/dir/"}).Draw(t, "gcsTail")
			targets = append(targets, "googlecloudstorage")
		}
		if rapid.Bool().Draw(t, "gdrive") {
			high.GoogleDrive = "clientid:clientsecret:refreshtoken:parentid"
			targets = append(targets, "googledrive")
		}
		hb, _ := json.Marshal(high)
		conf, err := serverinit.Load(hb)
		if err != nil {
			// combinations the generator refuses are outside the domain
			evid.R.Label("config/refused-by-genconfig")
			return
		}
		low := conf.LowLevelJSONConfig()
		prefixes, _ := low["prefixes"].(map[string]any)
		var names []string
		for p := range prefixes {
			names = append(names, p)
		}
		sort.Strings(names)
		nsync := 0
		for _, p := range names {
			h, _ := prefixes[p].(map[string]any)
			if h == nil || h["handler"] != "sync" {
				continue
			}
			a, _ := h["handlerArgs"].(map[string]any)
			if a == nil {
				continue
			}
			if idle, _ := a["idle"].(bool); idle {
				evid.R.Label("config/sync-handler-idle-stub")
				continue
			}
			to, _ := a["to"].(string)
			q, _ := a["queue"].(map[string]any)
			nsync++
			evid.R.Eval()
			evid.R.Label("config/sync-handler " + p)
			exemptIndex := to == "/index/" && spec.Index == "memory"
			volatileSource := spec.Storage == "memory"
			qt, _ := q["type"].(string)
			switch {
			case volatileSource || exemptIndex:
				evid.R.Label("config/queue-may-be-volatile(" + map[bool]string{true: "memory storage", false: "in-memory index destination"}[volatileSource] + ")")
			case q == nil || qt == "" || qt == "memory":
				t.Fatalf("C19 violated: generated configuration (storage=%s index=%s replication=%v): sync handler %s (from %v to %s) gets the queue %v: its source is kept on disk but deliveries pending at shutdown are not\nhigh-level config: %s", spec.Storage, spec.Index, targets, p, a["from"], to, q, hb)
			default:
				if f, _ := q["file"].(string); f == "" && (qt == "kv" || qt == "leveldb" || qt == "sqlite") {
					t.Fatalf("C19 violated: generated configuration: sync handler %s has a %s queue without a file: %v", p, qt, q)
				}
				evid.R.Label("config/queue-on-disk(" + qt + ")")
			}
		}
		if nsync > 0 && len(targets) > 0 && spec.Storage != "memory" {
			evid.R.NonTrivial(evid.Hash("cfg", spec.Storage, spec.Index, strings.Join(targets, ","), string(hb)))
		}
		if evid.R.WantSample(len(targets) > 0) {
			evid.R.Sample(len(targets) > 0, map[string]any{"kind": "generated-config", "storage": spec.Storage, "index": spec.Index, "replication_targets": targets, "sync_handlers": nsync, "summary": fmt.Sprintf("%d sync handlers", nsync)})
		}
	})
}
