// C19 — asynchronous sync delivers every blob eventually and its queue is durable.
package c19

import (
	"bytes"
	"flag"
	"fmt"
	"strings"
	"sync"
	"testing"

	"pgregory.net/rapid"

	"verifharness/internal/evid"
	"verifharness/internal/known"
	"verifharness/internal/vgen"
	"verifharness/internal/vstore"
)

const prop = "C19"

func TestMain(m *testing.M) {
	evid.Main(m, prop, "fault_enumeration",
		"each case builds the real \"sync\" handler (blobserver.CreateHandler) over a harness source store, a destination that is a harness store (4 of 5) or a real index.Index over a harness KV (1 of 5; its CommitBatch is then the faultable/holdable destination write, delivered = durable have:<ref> row with the right size) and a named harness queue KV, with drawn copierPoolSize and start mode (queue only x4 | fullSyncOnStart | blockingFullSyncOnStart | validateOnStart), and plays a drawn history of 3..14 (thorough ..24) steps: "+
			"upload of one of 2..6 pool blobs through blobserver.Receive (repeats = duplicate uploads and client retries), "+
			"finite fault window (the next 1..6 calls) on to.ReceiveBlob {error, stored-but-error, wrong size}, from.Fetch {error, size mismatch, corrupt bytes}, queue.Set/Delete {error, applied-but-error}, queue.Find {error}, "+
			"hold/release of a copier call site (to.ReceiveBlob, from.Fetch, queue.Delete = slow call), pause / settle (let the copier run), and restart (old wrappers fenced: calls in flight finish, every later call of the old handler's goroutines has no effect; new wrapper identities, hence a new blob hub, over the same contents and queue rows; a call held at restart never happens = crash at that point); "+
			"then faults stop, holds are released and either one fresh blob is uploaded or the loop timer alone must retry. "+
			"Checked synchronously in the wrappers: at every queue.Delete(ref) the destination holds ref bit-identically and acknowledged it to this handler; at every upload acknowledgement, every restart and the end: each acknowledged blob is in the destination or in the persistent queue; stores only hold uploaded bytes. "+
			"Bounded eventuality: every acknowledged blob reaches the destination and queue rows of delivered blobs are deleted (except rows whose queue.Delete was called and failed, and rows written by an enqueue that reported an error to the uploader); a miss counts as violation only after 15 s without ANY lower-layer call while work is pending (loop interval 5 s), otherwise inconclusive. "+
			"Besides the rapid batches (16 quick / 24 thorough scenarios run concurrently per rapid case) a complete enumeration of single fault windows (every site x behaviour x length {1,3} x restart position {none, crash with the destination write pending, after settling}) and plain regressions of the two repaired defects run every time. non-trivial = at least one fault delivered to a copy attempt (from.Fetch, to.ReceiveBlob, queue.Delete) or a restart that found rows in the queue; distinct = FNV-64 of (config, pool refs, step list, final mode)")
}

func genStep(poolSize int) *rapid.Generator[step] {
	return rapid.Custom(func(t *rapid.T) step {
		k := rapid.IntRange(0, 17).Draw(t, "kind")
		switch {
		case k == 17:
			return step{Kind: "longpoll"}
		case k < 6:
			return step{Kind: "upload", Blob: rapid.IntRange(0, poolSize-1).Draw(t, "blob")}
		case k < 10:
			site := rapid.SampledFrom([]string{siteToReceive, siteToReceive, siteFromFetch, siteFromFetch, siteQSet, siteQSet, siteQDelete, siteQFind}).Draw(t, "site")
			beh := rapid.SampledFrom(faultMenu[site]).Draw(t, "behaviour")
			return step{Kind: "fault", Site: site, Beh: beh, N: rapid.IntRange(1, 6).Draw(t, "n")}
		case k < 11:
			return step{Kind: "hold", Site: rapid.SampledFrom(holdSites).Draw(t, "site")}
		case k < 12:
			return step{Kind: "release", Site: rapid.SampledFrom(holdSites).Draw(t, "site")}
		case k < 14:
			return step{Kind: "restart"}
		case k < 15:
			return step{Kind: "settle"}
		default:
			return step{Kind: "pause", Ms: rapid.SampledFrom([]int{0, 1, 3, 10}).Draw(t, "ms")}
		}
	})
}

func genScenario() *rapid.Generator[*scenario] {
	return rapid.Custom(func(t *rapid.T) *scenario {
		sc := &scenario{}
		sc.Dest = rapid.SampledFrom([]string{"store", "store", "store", "store", "index"}).Draw(t, "destination")
		sc.Pool = vgen.GenPool(t, 2, 6, false)
		if sc.Dest == "index" {
			// an index refuses unsigned permanodes for good (not a transient failure): keep them out of this configuration
			var keep []vgen.Blob
			for _, b := range sc.Pool {
				if !bytes.Contains(b.Data, []byte(`"permanode"`)) {
					keep = append(keep, b)
				}
			}
			for i := 0; len(keep) < 2; i++ {
				d := []byte(fmt.Sprintf("C19 filler blob %d", i))
				keep = append(keep, vgen.Blob{Ref: vgen.RefOf("sha224", d), Data: d, Class: "filler"})
			}
			sc.Pool = keep
		}
		sc.CopierPool = rapid.SampledFrom([]int{1, 2, 5}).Draw(t, "copierPoolSize")
		sc.Mode = rapid.SampledFrom([]string{"queue", "queue", "queue", "queue", "fullSyncOnStart", "blockingFullSyncOnStart", "validateOnStart"}).Draw(t, "mode")
		sc.Steps = rapid.SliceOfN(genStep(len(sc.Pool)), 3, evid.Pick(14, 24)).Draw(t, "steps")
		sc.Wake = rapid.IntRange(0, 3).Draw(t, "final") != 0
		sc.ViaCond = rapid.IntRange(0, 3).Draw(t, "viaCond") == 0
		sc.ViaReplica = !sc.ViaCond && rapid.IntRange(0, 3).Draw(t, "viaReplica") == 0
		sc.DestHTTP = rapid.IntRange(0, 3).Draw(t, "destOverHTTP") == 0
		sc.ErrKind = rapid.SampledFrom([]int{vstore.ErrPlain, vstore.ErrPlain, vstore.ErrDeadline, vstore.ErrCanceled, vstore.ErrTimeout}).Draw(t, "errKind")
		return sc
	})
}

// inconclusive results never fail a rapid case (rapid would shrink towards them);
// they fail the test at the end with the marker the driver maps to exit 2.
var (
	incMu sync.Mutex
	inc   []string
)

// knownSig maps a violation to the id of a recorded open finding ("" = none).
func knownSig(sc *scenario, v string) string {
	return ""
}

func runBatch(t *rapid.T, batch []*scenario) {
	results := make([]*result, len(batch))
	var wg sync.WaitGroup
	for i := range batch {
		wg.Add(1)
		go func(i int) {
			defer wg.Done()
			results[i] = run(batch[i])
		}(i)
	}
	wg.Wait()
	var fails []string
	for i, res := range results {
		sc := batch[i]
		evid.R.Eval()
		evid.R.Label("mode/" + sc.Mode)
		evid.R.Label("destination/" + sc.Dest)
		evid.R.Label(fmt.Sprintf("copierPoolSize/%d", sc.CopierPool))
		for _, l := range res.Labels {
			evid.R.Label(l)
		}
		nt := res.nontrivial()
		if nt {
			evid.R.Label("nontrivial")
			if res.CopyFaults > 0 {
				evid.R.Label("nontrivial/fault-hit-a-copy-attempt")
			}
			if res.NonEmptyRst > 0 {
				evid.R.Label("nontrivial/restart-with-non-empty-queue")
			}
			evid.R.NonTrivial(evid.Hash(sc.canonical()))
		}
		if evid.R.WantSample(nt) {
			d := sc.dump()
			d["observed"] = res.Trace
			d["faults_delivered_to_copy_attempts"] = res.CopyFaults
			d["restarts_with_non_empty_queue"] = res.NonEmptyRst
			evid.R.Sample(nt, d)
		}
		switch {
		case res.Violation != "":
			if id := knownSig(sc, res.Violation); id != "" && known.Hit(prop, id, res.Violation) {
				continue
			}
			fails = append(fails, fmt.Sprintf("C19 violated: %s\n%s", res.Violation, res.describe(sc)))
		case res.Inconclusive != "":
			evid.R.Label("inconclusive")
			incMu.Lock()
			inc = append(inc, res.Inconclusive+"\n"+res.describe(sc))
			incMu.Unlock()
		}
	}
	if len(fails) > 0 {
		t.Fatalf("%s", strings.Join(fails, "\n\n"))
	}
}

func reportInconclusive(t *testing.T) {
	incMu.Lock()
	defer incMu.Unlock()
	if len(inc) > 0 && !t.Failed() {
		t.Errorf("VERIF-INCONCLUSIVE: %d scenario(s) could not be decided within the time bound; first: %s", len(inc), inc[0])
	}
	inc = nil
}

func TestAsyncSyncDeliversAndQueueIsDurable(t *testing.T) {
	defer reportInconclusive(t)
	flag.Set("rapid.shrinktime", "90s")
	width := evid.Pick(16, 24) // scenarios run concurrently per rapid case: they wait, they do not compute
	evid.Check(t, 14, 200, func(t *rapid.T) {
		batch := rapid.SliceOfN(genScenario(), width, width).Draw(t, "scenarios")
		runBatch(t, batch)
	})
}
