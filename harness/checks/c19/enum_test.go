package c19

import (
	"fmt"
	"sort"
	"strings"
	"sync"
	"testing"

	"verifharness/internal/evid"
)

// TestSingleFaultWindowEnumeration enumerates completely: one fault window of every
// (site, behaviour) the harness knows, window length 1 and 3, against three restart
// positions, on a fixed two-blob history. quick: store destination, final mode
// alternating; thorough: x {store, index} x {fresh upload, loop timer only},
// partitioned over the shards.
func TestSingleFaultWindowEnumeration(t *testing.T) {
	if evid.Replaying() {
		t.Skip()
	}
	defer reportInconclusive(t)
	type ecase struct {
		sc   *scenario
		name string
	}
	var all []ecase
	sites := make([]string, 0, len(faultMenu))
	for s := range faultMenu {
		sites = append(sites, s)
	}
	sort.Strings(sites)
	dests := []string{"store"}
	if evid.Thorough() {
		dests = []string{"store", "index"}
	}
	k := 0
	for _, dest := range dests {
		for _, site := range sites {
			for _, beh := range faultMenu[site] {
				for _, n := range []int{1, 3} {
					for _, rst := range []string{"none", "crash-with-destination-write-pending", "after-settle"} {
						k++
						for _, wake := range []bool{true, false} {
							if !evid.Thorough() && (k%2 == 0) != wake {
								continue // quick: alternate the final mode instead of doubling
							}
							steps := []step{{Kind: "fault", Site: site, Beh: beh, N: n}, {Kind: "upload", Blob: 1}, {Kind: "settle"}}
							switch rst {
							case "crash-with-destination-write-pending":
								steps = []step{{Kind: "hold", Site: siteToReceive}, {Kind: "fault", Site: site, Beh: beh, N: n}, {Kind: "upload", Blob: 1}, {Kind: "settle"}, {Kind: "restart"}}
							case "after-settle":
								steps = append(steps, step{Kind: "restart"})
							}
							steps = append(steps, step{Kind: "upload", Blob: 0}, step{Kind: "settle"})
							if site == siteQSet {
								// the uploader saw an error: it retries
								steps = append(steps, step{Kind: "upload", Blob: 1}, step{Kind: "upload", Blob: 0}, step{Kind: "settle"})
							}
							sc := &scenario{Pool: handPool(2), CopierPool: 2, Mode: "queue", Dest: dest, Wake: wake, Steps: steps}
							all = append(all, ecase{sc, fmt.Sprintf("%s/%s/%s x%d/restart=%s/wake=%v", dest, site, beh, n, rst, wake)})
						}
					}
				}
			}
		}
	}
	shard, nshards := evid.Shard()
	var mine []ecase
	for i, c := range all {
		if i%nshards == shard {
			mine = append(mine, c)
		}
	}
	results := make([]*result, len(mine))
	var wg sync.WaitGroup
	for i := range mine {
		wg.Add(1)
		go func(i int) {
			defer wg.Done()
			results[i] = run(mine[i].sc)
		}(i)
	}
	wg.Wait()
	var fails []string
	for i, res := range results {
		c := mine[i]
		evid.R.Eval()
		evid.R.Label("enumerated-single-fault-window")
		for _, l := range res.Labels {
			evid.R.Label(l)
		}
		if res.nontrivial() {
			evid.R.Label("nontrivial")
			evid.R.NonTrivial(evid.Hash("enum", c.name))
		}
		switch {
		case res.Violation != "":
			fails = append(fails, fmt.Sprintf("C19 violated (enumerated case %s): %s\n%s", c.name, res.Violation, res.describe(c.sc)))
		case res.Inconclusive != "":
			evid.R.Label("inconclusive")
			incMu.Lock()
			inc = append(inc, c.name+": "+res.Inconclusive+"\n"+res.describe(c.sc))
			incMu.Unlock()
		}
	}
	evid.R.Exhaustive("single fault window: every (site, behaviour) of {to.ReceiveBlob, from.Fetch, queue.Set, queue.Delete, queue.Find} x window length {1,3} x restart {none, crash with the destination write pending, after the copier settled} on a two-blob history (thorough: x destination {store, index} x final {fresh upload, loop timer only}, partitioned over shards)")
	if len(fails) > 0 {
		t.Fatalf("%s", strings.Join(fails, "\n\n"))
	}
}
