package c19

// Scenario executor: plain Go, no rapid. A scenario is pure data (drawn by the
// rapid generator in c19_test.go or written by hand in regress_test.go); running
// it builds the real "sync" handler over harness stores and plays the history.

import (
	"bytes"
	"context"
	"encoding/json"
	"errors"
	"fmt"
	"io"
	"net/http"
	"os"
	_ "perkeep.org/pkg/blobserver/cond"
	_ "perkeep.org/pkg/blobserver/replica"
	"sort"
	"strconv"
	"strings"
	"sync"
	"sync/atomic"
	"time"

	"go4.org/jsonconfig"
	"perkeep.org/pkg/blob"
	"perkeep.org/pkg/blobserver"
	"perkeep.org/pkg/index"
	_ "perkeep.org/pkg/server" // registers the "sync" handler
	"perkeep.org/pkg/sorted"

	"verifharness/internal/vcompose"
	"verifharness/internal/vgen"
	"verifharness/internal/vstore"
	"verifharness/internal/vwatch"
)

var ctx = context.Background()

// Timing constants. None of them can turn a slow machine into a violation:
// a violation of the eventuality clause needs idleProof of complete silence of
// the copier (no lower-layer call at all) while work is pending, measured by a
// poller that itself verifies it was scheduled on time.
const (
	queueSyncInterval = 5 * time.Second // pkg/server/sync.go
	starvedStep       = 1500 * time.Millisecond
	drainCap          = 20 * time.Second
)

var (
	idleProof = 3 * queueSyncInterval // silence that proves a parked copier
	hardCap   = 75 * time.Second      // give up (inconclusive) after this long
)

func init() {
	// development aid only (exercising the inconclusive path): C19_IDLEPROOF / C19_HARDCAP as Go durations
	if d, err := time.ParseDuration(os.Getenv("C19_IDLEPROOF")); err == nil && d > 0 {
		idleProof = d
	}
	if d, err := time.ParseDuration(os.Getenv("C19_HARDCAP")); err == nil && d > 0 {
		hardCap = d
	}
}

// sites at which the harness can inject faults / hold calls.
const (
	siteToReceive = "to.receive"
	siteFromFetch = "from.fetch"
	siteQSet      = "q.set"
	siteQDelete   = "q.delete"
	siteQFind     = "q.find"
)

var behByName = map[string]vstore.Behaviour{
	"error":             vstore.Fail,      // call fails, nothing happens
	"applied-but-error": vstore.FailAfter, // the effect happens, the caller sees an error (lost ack)
	"wrong-size":        vstore.WrongSize, // receive: stored, reports size+1; fetch: reports size+1
	"corrupt":           vstore.Corrupt,   // fetch: one bit flipped
}

// faultMenu lists, per site, the behaviours the generator may inject.
var faultMenu = map[string][]string{
	siteToReceive: {"error", "applied-but-error", "wrong-size"},
	siteFromFetch: {"error", "wrong-size", "corrupt"},
	siteQSet:      {"error", "applied-but-error"},
	siteQDelete:   {"error", "applied-but-error"},
	siteQFind:     {"error"},
}

var holdSites = []string{siteToReceive, siteFromFetch, siteQDelete}

type step struct {
	Kind string `json:"kind"` // upload | fault | hold | release | restart | pause | settle
	Blob int    `json:"blob,omitempty"`
	Site string `json:"site,omitempty"`
	Beh  string `json:"behaviour,omitempty"`
	N    int    `json:"n,omitempty"`
	Ms   int    `json:"ms,omitempty"`
}

func (s step) String() string {
	switch s.Kind {
	case "upload":
		return fmt.Sprintf("upload #%d", s.Blob)
	case "fault":
		return fmt.Sprintf("fault %s %s x%d", s.Site, s.Beh, s.N)
	case "hold":
		return "hold " + s.Site
	case "release":
		return "release " + s.Site
	case "restart":
		return "restart"
	case "pause":
		return fmt.Sprintf("pause %dms", s.Ms)
	case "longpoll":
		return "long-poll on the source for an absent blob"
	case "settle":
		return "settle"
	}
	return "?" + s.Kind
}

type scenario struct {
	Pool       []vgen.Blob
	CopierPool int
	Mode       string // "queue" | "fullSyncOnStart" | "blockingFullSyncOnStart" | "validateOnStart"
	Dest       string // "store" (harness store) | "index" (a real index.Index over a harness KV; "to.receive" then means the index's CommitBatch)
	Steps      []step
	Wake       bool // after the last fault: upload one more fresh blob (wakes the copy loop); false = rely on the loop's own timer
	// ViaCond: uploads reach the source through a "cond" storage in front of it (the layout of perkeep's
	// default server configuration, where /bs-and-maybe-also-index/ routes to /bs/) instead of being
	// handed to the source directly.
	ViaCond bool
	// DestHTTP: the destination store is reached over HTTP (handlers + pkg/client), as a remote one is.
	DestHTTP bool
	// ViaReplica: uploads reach the source through a "replica" storage whose (only) backend it is.
	ViaReplica bool
	// ErrKind: shape of the injected lower-layer errors (plain, the lower layer's own deadline or
	// cancellation, an i/o timeout): none of them says anything about the handler's own context.
	ErrKind int
}

func (sc *scenario) canonical() string {
	var b strings.Builder
	fmt.Fprintf(&b, "pool=%d mode=%s dest=%s wake=%v viacond=%v viareplica=%v desthttp=%v errkind=%d;", sc.CopierPool, sc.Mode, sc.Dest, sc.Wake, sc.ViaCond, sc.ViaReplica, sc.DestHTTP, sc.ErrKind)
	for _, p := range sc.Pool {
		b.WriteString(p.Ref.String())
		b.WriteByte(',')
	}
	for _, s := range sc.Steps {
		b.WriteString(s.String())
		b.WriteByte(';')
	}
	return b.String()
}

func (sc *scenario) dump() map[string]any {
	var pool, steps []string
	for i, p := range sc.Pool {
		pool = append(pool, fmt.Sprintf("#%d %s", i, p))
	}
	for _, s := range sc.Steps {
		steps = append(steps, s.String())
	}
	return map[string]any{"config": map[string]any{"copierPoolSize": sc.CopierPool, "mode": sc.Mode, "destination": sc.Dest}, "pool": pool, "history": steps,
		"final": map[bool]string{true: "faults stop, holds released, one fresh blob uploaded", false: "faults stop, holds released, no further upload (loop timer only)"}[sc.Wake]}
}

type result struct {
	Violation    string
	Inconclusive string
	Labels       []string
	CopyFaults   int // faults delivered to a copy attempt (from.fetch / to.receive / q.delete)
	NonEmptyRst  int // restarts that found rows in the queue
	Trace        []string
	Wall         time.Duration
	ConvergeWait time.Duration
}

func (r *result) nontrivial() bool { return r.CopyFaults > 0 || r.NonEmptyRst > 0 }

type window struct {
	beh  string
	left int
}

type epoch struct {
	n        int
	env      *vstore.Env
	from, to *vstore.Store
	q        *vstore.KV
	idxKV    *vstore.KV   // Dest == "index": the rows of the destination index
	idx      *index.Index // Dest == "index"
	handler  http.Handler

	// guarded by runner.mu
	fenced   bool
	fenceCh  chan struct{}
	inflight int
	holds    map[string]chan struct{}
	behBySeq map[int]vstore.Behaviour
	destAck  map[string]bool // to.ReceiveBlob(ref) returned nil error and the right size in this epoch
	deletes  map[string]bool // queue.Delete(ref) was called in this epoch
	setLost  map[string]bool // queue.Set(ref) wrote the row but reported an error (so the enqueue failed and the handler does not track the blob)
	calls    int
}

type runner struct {
	sc  *scenario
	res *result

	mu       sync.Mutex
	closers  []io.Closer
	ep       *epoch
	data     map[string][]byte // ref -> content of every blob the scenario knows
	acked    map[string]bool   // an upload of ref was acknowledged without error
	errored  map[string]bool   // an upload of ref reported an error (and none was acknowledged so far)
	windows  map[string]*window
	hits     map[string]int
	lastCall time.Time
	viol     []string
	labels   map[string]bool
}

func (r *runner) label(s string) {
	r.mu.Lock()
	r.labels[s] = true
	r.mu.Unlock()
}

func (r *runner) violate(f string, a ...any) {
	r.mu.Lock()
	r.viol = append(r.viol, fmt.Sprintf(f, a...))
	r.mu.Unlock()
}

func (r *runner) firstViolation() string {
	r.mu.Lock()
	defer r.mu.Unlock()
	if len(r.viol) > 0 {
		return r.viol[0]
	}
	return ""
}

func (r *runner) tracef(f string, a ...any) { r.res.Trace = append(r.res.Trace, fmt.Sprintf(f, a...)) }

func siteOf(e *vstore.Event) string {
	switch e.Layer {
	case "store:to":
		return "to." + e.Op
	case "store:from":
		return "from." + e.Op
	case "kv:q":
		return "q." + e.Op
	case "kv:idx":
		if e.Op == "commit" {
			return siteToReceive // the destination write of an index is the commit of its rows
		}
		return "idx." + e.Op
	}
	return e.Layer + "." + e.Op
}

type loader struct{ m map[string]blobserver.Storage }

func (ld *loader) FindHandlerByType(string) (string, any, error) {
	return "", nil, blobserver.ErrHandlerTypeNotFound
}
func (ld *loader) AllHandlers() (map[string]string, map[string]any) { return nil, nil }
func (ld *loader) MyPrefix() string                                 { return "/sync/" }
func (ld *loader) BaseURL() string                                  { return "" }
func (ld *loader) GetHandlerType(string) string                     { return "" }
func (ld *loader) GetHandler(p string) (any, error)                 { return ld.GetStorage(p) }
func (ld *loader) GetStorage(p string) (blobserver.Storage, error) {
	if s, ok := ld.m[p]; ok {
		return s, nil
	}
	return nil, fmt.Errorf("no storage %q", p)
}

// park blocks the calling goroutine for ever: the process it belonged to died.
func park() { select {} }

// newEpoch creates fresh wrapper identities over the same contents (prev's, if
// any) and installs the hooks. It does not build the handler yet.
func (r *runner) newEpoch(prev *epoch) *epoch {
	ep := &epoch{
		env:      vstore.NewEnv(),
		fenceCh:  make(chan struct{}),
		holds:    map[string]chan struct{}{},
		behBySeq: map[int]vstore.Behaviour{},
		destAck:  map[string]bool{},
		deletes:  map[string]bool{},
		setLost:  map[string]bool{},
	}
	ep.env.ErrKind = r.sc.ErrKind
	ep.from = ep.env.NewStore("from")
	ep.q = ep.env.NewKV("q")
	if r.sc.Dest == "index" {
		ep.idxKV = ep.env.NewKV("idx")
		if prev != nil {
			for k, v := range prev.idxKV.Dump() {
				ep.idxKV.Inner().Set(k, v)
			}
		}
	} else {
		ep.to = ep.env.NewStore("to")
		if prev != nil {
			ep.to.Restore(prev.to.Snapshot())
			prev.to.Restore(nil)
		}
	}
	if prev != nil {
		ep.n = prev.n + 1
		ep.from.Restore(prev.from.Snapshot())
		for k, v := range prev.q.Dump() {
			ep.q.Inner().Set(k, v)
		}
		// the old identities are dead; let their contents go
		prev.from.Restore(nil)
	}
	ep.env.Match = func(e *vstore.Event) vstore.Behaviour { // called under env.mu
		site := siteOf(e)
		r.mu.Lock()
		defer r.mu.Unlock()
		b := vstore.OK
		if w := r.windows[site]; w != nil && w.left > 0 {
			w.left--
			b = behByName[w.beh]
			if b == vstore.WrongSize && e.Layer == "kv:idx" {
				b = vstore.Fail
			}
			r.hits[site+"/"+w.beh]++
		}
		ep.behBySeq[e.Seq] = b
		return b
	}
	ep.env.YieldHook = func(e *vstore.Event) {
		site := siteOf(e)
		r.mu.Lock()
		gate := ep.holds[site]
		r.mu.Unlock()
		if gate != nil {
			select {
			case <-gate:
			case <-ep.fenceCh:
				park() // the process died while this call was pending
			}
		}
		r.mu.Lock()
		if ep.fenced {
			r.mu.Unlock()
			park()
		}
		ep.inflight++
		ep.calls++
		r.lastCall = time.Now()
		r.mu.Unlock()
	}
	ep.env.BeforeMut = func(e *vstore.Event) {
		if siteOf(e) != siteQDelete {
			return
		}
		// SAFETY 1: the row of ref leaves the queue now; the destination must hold it, bit-identical, and must have acknowledged it.
		ref, ok := blob.Parse(e.Key)
		if !ok {
			r.violate("queue.Delete(%q): key is not a blobref", e.Key)
			return
		}
		r.mu.Lock()
		want, known := r.data[e.Key]
		ack := ep.destAck[e.Key] || ep.idx != nil // an index acknowledges by its durable "have" row, checked below
		r.mu.Unlock()
		got, have := ep.destGet(ref, want)
		switch {
		case !known:
			r.violate("queue.Delete(%s) for a blob that was never uploaded", e.Key)
		case !have:
			r.violate("queue row of %s is deleted (call #%d, epoch %d) but the destination does not hold the blob", e.Key, e.Seq, ep.n)
		case !bytes.Equal(got, want):
			r.violate("queue row of %s is deleted (call #%d, epoch %d) but the destination holds different bytes (%d bytes, want %d: %s)", e.Key, e.Seq, ep.n, len(got), len(want), diffAt(got, want))
		case !ack:
			r.violate("queue row of %s is deleted (call #%d, epoch %d) although no to.ReceiveBlob of this handler returned success with the right size for it", e.Key, e.Seq, ep.n)
		}
	}
	ep.env.AfterHook = func(e *vstore.Event) {
		site := siteOf(e)
		r.mu.Lock()
		switch site {
		case siteToReceive:
			if e.Outcome == "ok" && ep.behBySeq[e.Seq] == vstore.OK {
				ep.destAck[e.Key] = true
			}
		case siteQDelete:
			ep.deletes[e.Key] = true
		case siteQSet:
			if e.Outcome == "injected-after" {
				ep.setLost[e.Key] = true
			}
		}
		ep.inflight--
		r.lastCall = time.Now()
		r.mu.Unlock()
	}
	return ep
}

func diffAt(a, b []byte) string {
	for i := 0; i < len(a) && i < len(b); i++ {
		if a[i] != b[i] {
			return fmt.Sprintf("first difference at offset %d: %#x vs %#x", i, a[i], b[i])
		}
	}
	return "one is a prefix of the other"
}

// The queue KV is handed to the handler through perkeep's sorted registry under
// its own type name, looked up by a per-epoch unique name (no process-global
// "current Env", so scenarios can run concurrently).
var (
	kvReg sync.Map // name -> *vstore.KV
	kvSeq atomic.Uint64
)

func init() {
	sorted.RegisterKeyValue("c19queue", func(conf jsonconfig.Obj) (sorted.KeyValue, error) {
		name := conf.RequiredString("name")
		if err := conf.Validate(); err != nil {
			return nil, err
		}
		kv, ok := kvReg.Load(name)
		if !ok {
			return nil, fmt.Errorf("c19queue: no queue %q", name)
		}
		return kv.(*vstore.KV), nil
	})
}

type stop struct {
	violation    string
	inconclusive string
}

func (s *stop) Error() string { return s.violation + s.inconclusive }

// idleWatch decides "the copier is provably parked": no lower-layer call for
// idleProof although the poller itself was scheduled on time all along.
type idleWatch struct {
	r        *runner
	ep       *epoch
	t0       time.Time
	idleFrom time.Time
	lastTick time.Time
}

func (r *runner) newIdleWatch(ep *epoch) *idleWatch {
	now := time.Now()
	return &idleWatch{r: r, ep: ep, t0: now, idleFrom: now, lastTick: now}
}

// tick must be called at every poll; it returns (silence so far, calls in flight, calls of this epoch).
func (w *idleWatch) tick() (time.Duration, int, int) {
	now := time.Now()
	if now.Sub(w.lastTick) > starvedStep {
		// this poller itself was not scheduled for a long time: the machine is overloaded, silence observed so far proves nothing
		w.idleFrom = now
		w.r.label("timing/poller-starved")
	}
	w.lastTick = now
	w.r.mu.Lock()
	last := w.r.lastCall
	infl := w.ep.inflight
	calls := w.ep.calls
	w.r.mu.Unlock()
	if last.Before(w.idleFrom) {
		last = w.idleFrom
	}
	return now.Sub(last), infl, calls
}

// start builds the sync handler of ep (retrying while injected queue-read faults make construction fail).
func (r *runner) start(ep *epoch) error {
	ld := &loader{m: map[string]blobserver.Storage{"/from/": ep.from, "/to/": ep.to}}
	if r.sc.DestHTTP && r.sc.Dest != "index" {
		// the destination is another server: perkeep's protocol handlers over the harness store, and the
		// sync handler writes to it through a pkg/client (what the "remote" storage type is)
		hs, err := vcompose.NewHTTPStore(ep.to, false, nil)
		if err != nil {
			return &stop{inconclusive: fmt.Sprintf("harness: destination over HTTP: %v", err)}
		}
		r.mu.Lock()
		r.closers = append(r.closers, hs.(io.Closer))
		r.mu.Unlock()
		ld.m["/to/"] = hs
		r.label("destination/over-http")
	}
	if r.sc.Dest == "index" {
		if ep.idx == nil {
			ix, err := index.New(ep.idxKV)
			if err != nil {
				return &stop{inconclusive: fmt.Sprintf("harness: index.New over the rows of the previous epoch: %v", err)}
			}
			ix.InitBlobSource(ep.from)
			ep.idx = ix
		}
		ld.m["/to/"] = ep.idx
	}
	name := fmt.Sprintf("q%d", kvSeq.Add(1))
	kvReg.Store(name, ep.q)
	defer kvReg.Delete(name)
	for attempt := 0; ; attempt++ {
		conf := jsonconfig.Obj{
			"from":           "/from/",
			"to":             "/to/",
			"queue":          map[string]any{"type": "c19queue", "name": name},
			"copierPoolSize": float64(r.sc.CopierPool),
		}
		switch r.sc.Mode {
		case "fullSyncOnStart":
			conf["fullSyncOnStart"] = true
		case "blockingFullSyncOnStart":
			conf["blockingFullSyncOnStart"] = true
		case "validateOnStart":
			conf["validateOnStart"] = true // background source-minus-destination scan that enqueues what is missing
		}
		type built struct {
			h   http.Handler
			err error
		}
		done := make(chan built, 1)
		go func() {
			h, err := blobserver.CreateHandler("sync", ld, conf)
			done <- built{h, err}
		}()
		var b built
		w := r.newIdleWatch(ep)
	wait:
		for {
			select {
			case b = <-done:
				break wait
			case <-time.After(2 * time.Millisecond):
			}
			silent, infl, calls := w.tick()
			if infl == 0 && silent >= idleProof {
				return &stop{violation: fmt.Sprintf("CreateHandler(\"sync\", mode %s) of epoch %d has not returned after %.1fs and made no call to source, destination or queue for %.1fs (%d calls so far): the handler is parked, nothing uploaded from now on can ever be delivered",
					r.sc.Mode, ep.n, time.Since(w.t0).Seconds(), silent.Seconds(), calls)}
			}
			if time.Since(w.t0) > hardCap {
				return &stop{inconclusive: fmt.Sprintf("CreateHandler(sync) did not return within %v but keeps making calls", hardCap)}
			}
		}
		if b.err == nil {
			ep.handler = b.h
			if attempt > 0 {
				r.label("restart/construction-failed-then-succeeded")
			}
			return nil
		}
		if !errors.Is(b.err, vstore.ErrInjected) && !strings.Contains(b.err.Error(), vstore.ErrInjected.Error()) {
			return &stop{inconclusive: fmt.Sprintf("harness: CreateHandler(sync): %v", b.err)}
		}
		if attempt > 50 {
			return &stop{inconclusive: fmt.Sprintf("harness: CreateHandler(sync) still fails after %d attempts: %v", attempt, b.err)}
		}
	}
}

// fence kills the current epoch: calls that started before complete, every later
// call of the old handler's goroutines fails (or parks) without any effect.
func (r *runner) fence(ep *epoch) error {
	r.mu.Lock()
	ep.fenced = true
	close(ep.fenceCh)
	t0 := time.Now()
	for ep.inflight > 0 {
		r.mu.Unlock()
		if time.Since(t0) > drainCap {
			return &stop{inconclusive: fmt.Sprintf("harness: in-flight lower-layer calls of epoch %d did not drain within %v", ep.n, drainCap)}
		}
		time.Sleep(50 * time.Microsecond)
		r.mu.Lock()
	}
	r.mu.Unlock()
	ep.env.FreezeNow()
	return nil
}

// durable is SAFETY 2 for one acknowledged blob: it is in the persistent queue
// or in the destination. The queue is read first: the only legal movement is
// queue -> (queue+destination) -> destination, so this order cannot miss.
func (r *runner) durable(ep *epoch, ref string) bool {
	if _, err := ep.q.Inner().Get(ref); err == nil {
		return true
	}
	_, ok := ep.destGet(blob.MustParse(ref), nil)
	return ok
}

// destGet reads the destination without going through the wrappers. For an
// index destination "holds the blob" means: its durable "have:<ref>" row exists;
// the bytes are reported as identical iff the recorded size is the blob's size.
func (ep *epoch) destGet(br blob.Ref, want []byte) ([]byte, bool) {
	if ep.idxKV == nil {
		return ep.to.RawGet(br)
	}
	v, err := ep.idxKV.Inner().Get("have:" + br.String())
	if err != nil {
		return nil, false
	}
	if want != nil && (v == strconv.Itoa(len(want)) || strings.HasPrefix(v, strconv.Itoa(len(want))+"|")) {
		return want, true
	}
	return []byte("index row have:" + br.String() + " => " + v), true
}

// destRefs lists what the destination holds.
func (ep *epoch) destRefs() []blob.Ref {
	if ep.idxKV == nil {
		return ep.to.RawRefs()
	}
	var out []blob.Ref
	rows := ep.idxKV.Dump()
	keys := make([]string, 0, len(rows))
	for k := range rows {
		keys = append(keys, k)
	}
	sort.Strings(keys)
	for _, k := range keys {
		if strings.HasPrefix(k, "have:") {
			if br, ok := blob.Parse(k[len("have:"):]); ok {
				out = append(out, br)
			}
		}
	}
	return out
}

func (r *runner) ackedSorted() []string {
	r.mu.Lock()
	defer r.mu.Unlock()
	out := make([]string, 0, len(r.acked))
	for k := range r.acked {
		out = append(out, k)
	}
	sort.Strings(out)
	return out
}

func (r *runner) checkAllDurable(ep *epoch, when string) {
	for _, ref := range r.ackedSorted() {
		if !r.durable(ep, ref) {
			r.violate("%s: blob %s was acknowledged to the uploader but is neither in the destination nor in the persistent queue", when, ref)
		}
	}
}

// checkStores: nothing invented, nothing altered (both stores only ever hold blobs the scenario uploaded, with their bytes; queue rows are ref -> size).
func (r *runner) checkStores(ep *epoch, when string) {
	r.mu.Lock()
	data := r.data
	r.mu.Unlock()
	type side struct {
		name string
		refs []blob.Ref
		get  func(blob.Ref, []byte) ([]byte, bool)
	}
	for _, s := range []side{{"destination", ep.destRefs(), ep.destGet}, {"source", ep.from.RawRefs(), func(br blob.Ref, _ []byte) ([]byte, bool) { return ep.from.RawGet(br) }}} {
		name := s.name
		for _, br := range s.refs {
			want, ok := data[br.String()]
			got, _ := s.get(br, want)
			if !ok {
				r.violate("%s: %s holds %s which was never uploaded", when, name, br)
			} else if !bytes.Equal(got, want) {
				r.violate("%s: %s holds %s with different bytes (%d bytes, want %d: %s)", when, name, br, len(got), len(want), diffAt(got, want))
			}
		}
	}
	rows := ep.q.Dump()
	keys := make([]string, 0, len(rows))
	for k := range rows {
		keys = append(keys, k)
	}
	sort.Strings(keys)
	for _, k := range keys {
		want, ok := data[k]
		if !ok {
			r.violate("%s: queue row %q => %q is not a blob that was uploaded", when, k, rows[k])
		} else if rows[k] != strconv.Itoa(len(want)) {
			r.violate("%s: queue row %s => %q, the blob has %d bytes", when, k, rows[k], len(want))
		}
	}
}

func (r *runner) upload(ep *epoch, b vgen.Blob, what string) {
	key := b.Ref.String()
	if b.Data == nil {
		b.Data = []byte{}
	}
	r.mu.Lock()
	r.data[key] = b.Data
	setFaultsBefore := r.hits[siteQSet+"/error"] + r.hits[siteQSet+"/applied-but-error"]
	wasAcked := r.acked[key]
	wasErr := r.errored[key]
	r.mu.Unlock()
	_, inFrom := ep.from.RawGet(b.Ref)
	var dst blobserver.BlobReceiver = ep.from
	if r.sc.ViaCond {
		ld := &loader{m: map[string]blobserver.Storage{"/from/": ep.from}}
		cs, cerr := blobserver.CreateStorage("cond", ld, jsonconfig.Obj{
			"write": map[string]any{"if": "isSchema", "then": "/from/", "else": "/from/"},
			"read":  "/from/",
		})
		if cerr != nil {
			r.violate("harness: cannot build the cond storage: %v", cerr)
		}
		dst = cs
		r.label("upload/via-cond")
	}
	if r.sc.ViaReplica {
		ld := &loader{m: map[string]blobserver.Storage{"/from/": ep.from}}
		rs, rerr := blobserver.CreateStorage("replica", ld, jsonconfig.Obj{"backends": []any{"/from/"}})
		if rerr != nil {
			r.violate("harness: cannot build the replica storage: %v", rerr)
		}
		dst = rs
		r.label("upload/via-replica")
	}
	sb, err := blobserver.Receive(ctx, dst, b.Ref, bytes.NewReader(b.Data))
	r.mu.Lock()
	setFaults := r.hits[siteQSet+"/error"] + r.hits[siteQSet+"/applied-but-error"] - setFaultsBefore
	r.mu.Unlock()
	if inFrom {
		r.label("upload/blob-already-in-source")
	}
	if err != nil {
		if setFaults == 0 {
			r.violate("%s: upload of %s reported %v although no enqueue fault was injected", what, b, err)
		}
		r.mu.Lock()
		if !r.acked[key] {
			r.errored[key] = true
		}
		r.mu.Unlock()
		r.label("upload/error-reported(enqueue-fault)")
		r.tracef("%s %s -> error %v", what, b.Ref, err)
		return
	}
	if sb.Ref != b.Ref || int(sb.Size) != len(b.Data) {
		r.violate("%s: upload of %s acknowledged as %v", what, b, sb)
	}
	r.mu.Lock()
	r.acked[key] = true
	delete(r.errored, key)
	r.mu.Unlock()
	if wasErr && !wasAcked {
		r.label("upload/retry-after-reported-error")
	}
	if wasAcked {
		r.label("upload/duplicate-of-acknowledged")
	}
	// SAFETY 2 at the moment of the acknowledgement
	if !r.durable(ep, key) {
		r.violate("%s: upload of %s was acknowledged (enqueue returned nil) but the blob is neither in the persistent queue nor in the destination: a crash now loses the delivery", what, b.Ref)
	}
	r.tracef("%s %s -> ack", what, b.Ref)
}

// settle gives the copier time to do what it can do right now: it returns when
// no lower-layer call happened for ~1 ms (or after 50 ms). Only coverage depends
// on it, no verdict does.
func (r *runner) settle(ep *epoch) {
	t0 := time.Now()
	last, same := -1, 0
	for time.Since(t0) < 50*time.Millisecond {
		r.mu.Lock()
		calls, infl := ep.calls, ep.inflight
		r.mu.Unlock()
		if calls == last && infl == 0 {
			same++
			if same >= 3 {
				return
			}
		} else {
			same = 0
		}
		last = calls
		time.Sleep(400 * time.Microsecond)
	}
}

func (r *runner) restart() error {
	old := r.ep
	r.mu.Lock()
	held := 0
	for range old.holds {
		held++
	}
	r.mu.Unlock()
	if err := r.fence(old); err != nil {
		return err
	}
	// quiescent point: nothing of the old handler is in flight and nothing will ever take effect again
	r.checkAllDurable(old, fmt.Sprintf("at restart #%d", old.n+1))
	r.checkStores(old, fmt.Sprintf("at restart #%d", old.n+1))
	rows := len(old.q.Dump())
	missing := 0
	for _, ref := range r.ackedSorted() {
		if _, ok := old.destGet(blob.MustParse(ref), nil); !ok {
			missing++
		}
	}
	if rows > 0 {
		r.res.NonEmptyRst++
		r.label("restart/queue-non-empty")
	} else {
		r.label("restart/queue-empty")
	}
	if missing > 0 {
		r.label("restart/with-undelivered-acknowledged-blobs")
	}
	if held > 0 {
		r.label("restart/while-a-copier-call-is-held")
	}
	ep := r.newEpoch(old)
	r.mu.Lock()
	r.ep = ep
	r.lastCall = time.Now()
	r.mu.Unlock()
	r.tracef("restart -> epoch %d (queue rows %d, acknowledged blobs not yet in destination %d, held call sites %d)", ep.n, rows, missing, held)
	return r.start(ep)
}

// pending lists what still has to happen for the eventuality clause.
func (r *runner) pending(ep *epoch) []string {
	var out []string
	for _, ref := range r.ackedSorted() {
		r.mu.Lock()
		want := r.data[ref]
		r.mu.Unlock()
		got, ok := ep.destGet(blob.MustParse(ref), want)
		if !ok {
			out = append(out, "undelivered "+ref)
			continue
		}
		if !bytes.Equal(got, want) {
			r.violate("destination holds %s with different bytes (%d bytes, want %d: %s)", ref, len(got), len(want), diffAt(got, want))
		}
	}
	rows := ep.q.Dump()
	keys := make([]string, 0, len(rows))
	for k := range rows {
		keys = append(keys, k)
	}
	sort.Strings(keys)
	for _, k := range keys {
		br, ok := blob.Parse(k)
		if !ok {
			continue // reported by checkStores
		}
		if _, ok := ep.destGet(br, nil); !ok {
			// A row whose upload only ever reported an error to the uploader (the enqueue failed
			// after, or although, the row was written) need not be delivered by this handler.
			r.mu.Lock()
			acked := r.acked[k]
			r.mu.Unlock()
			if acked {
				out = append(out, "queued, not delivered "+k)
			}
			continue
		}
		// delivered but the row is still there: fine only if this handler did call queue.Delete for it
		// (the call failed by injection), or if the row was written by an enqueue that reported an
		// error to the uploader (row written, acknowledgement of the write lost: the handler does not
		// track the blob, the row is served after the next restart).
		r.mu.Lock()
		del := ep.deletes[k] || ep.setLost[k]
		r.mu.Unlock()
		if !del {
			out = append(out, "delivered but row never deleted "+k)
		}
	}
	return out
}

func run(sc *scenario) (res *result) {
	t0 := time.Now()
	res = &result{}
	r := &runner{sc: sc, res: res, data: map[string][]byte{}, acked: map[string]bool{}, errored: map[string]bool{},
		windows: map[string]*window{}, hits: map[string]int{}, labels: map[string]bool{}}
	defer func() {
		res.Wall = time.Since(t0)
		if res.Violation == "" {
			res.Violation = r.firstViolation()
		}
		r.mu.Lock()
		for _, c := range r.closers {
			go c.Close() // HTTP front ends of the destination; a copier call may still be inside one
		}
		for k, n := range r.hits {
			if n > 0 {
				r.labels["fault-delivered/"+k] = true
			}
		}
		res.CopyFaults = 0
		for k, n := range r.hits {
			if strings.HasPrefix(k, siteToReceive) || strings.HasPrefix(k, siteFromFetch) || strings.HasPrefix(k, siteQDelete) {
				res.CopyFaults += n
			}
		}
		for k := range r.labels {
			res.Labels = append(res.Labels, k)
		}
		ep := r.ep
		r.mu.Unlock()
		sort.Strings(res.Labels)
		if res.Violation != "" && ep != nil {
			log := ep.env.Log()
			if len(log) > 60 {
				log = log[len(log)-60:]
			}
			for _, e := range log {
				res.Trace = append(res.Trace, "  call "+e.String())
			}
		}
		// end of the scenario: kill the last handler too and drop the contents
		if ep != nil && !ep.fenced {
			r.fence(ep)
			ep.from.Restore(nil)
			if ep.to != nil {
				ep.to.Restore(nil)
			}
		}
	}()

	ep := r.newEpoch(nil)
	r.ep = ep
	r.lastCall = time.Now()
	if err := r.start(ep); err != nil {
		r.stopWith(err)
		return
	}
	for i, st := range sc.Steps {
		ep = r.ep
		switch st.Kind {
		case "upload":
			r.upload(ep, sc.Pool[st.Blob%len(sc.Pool)], fmt.Sprintf("step %d", i))
		case "fault":
			r.mu.Lock()
			r.windows[st.Site] = &window{beh: st.Beh, left: st.N}
			r.mu.Unlock()
			r.tracef("step %d %s", i, st)
		case "hold":
			r.mu.Lock()
			if ep.holds[st.Site] == nil {
				ep.holds[st.Site] = make(chan struct{})
			}
			r.mu.Unlock()
			r.tracef("step %d %s", i, st)
		case "release":
			r.mu.Lock()
			if g := ep.holds[st.Site]; g != nil {
				close(g)
				delete(ep.holds, st.Site)
			}
			r.mu.Unlock()
			r.tracef("step %d %s", i, st)
		case "pause":
			time.Sleep(time.Duration(st.Ms) * time.Millisecond)
		case "longpoll":
			// another client long-polls the source (stat/enumerate with maxwaitsec end up here) for a blob
			// that never arrives: it registers with the source's blob hub and must come back at its deadline,
			// whatever happened to earlier uploads (e.g. an enqueue hook that failed)
			wr := vwatch.Run(func() {
				blobserver.WaitForBlob(ep.from, time.Now().Add(2*time.Millisecond), []blob.Ref{vgen.RefOf("sha224", []byte("c19-never-uploaded"))})
			})
			r.tracef("step %d %s", i, st)
			r.label("step/longpoll-on-source")
			if wr.TimedOut {
				if wr.Parked {
					r.violate("step %d: %s", i, wr.Describe("a 2 ms long-poll (blobserver.WaitForBlob) on the source store"))
				} else {
					r.stopWith(&stop{inconclusive: wr.Describe("a 2 ms long-poll on the source store")})
					return
				}
			}
		case "settle":
			r.settle(ep)
		case "restart":
			if err := r.restart(); err != nil {
				r.stopWith(err)
				return
			}
		}
		if v := r.firstViolation(); v != "" {
			res.Violation = v
			return
		}
	}

	// ---- faults stop ----
	ep = r.ep
	r.mu.Lock()
	for k := range r.windows {
		delete(r.windows, k)
	}
	for k, g := range ep.holds {
		close(g)
		delete(ep.holds, k)
	}
	r.mu.Unlock()
	r.tracef("faults stop, holds released")
	if sc.Wake {
		data := []byte("C19 final wake blob of " + strconv.FormatUint(hash64(sc.canonical()), 16))
		r.upload(ep, vgen.Blob{Ref: blob.RefFromBytes(data), Data: data, Class: "wake"}, "final")
		r.label("final/fresh-upload-wakes-the-loop")
	} else {
		r.label("final/loop-timer-only")
	}

	// ---- bounded eventuality ----
	w := r.newIdleWatch(ep)
	w0 := w.t0
	sleep := 200 * time.Microsecond
	for {
		if v := r.firstViolation(); v != "" {
			res.Violation = v
			return
		}
		p := r.pending(ep)
		if v := r.firstViolation(); v != "" {
			res.Violation = v
			return
		}
		if len(p) == 0 {
			break
		}
		silent, infl, calls := w.tick()
		if infl == 0 && silent >= idleProof {
			// re-evaluate so that the verdict rests on an observation made after the silence was established
			if p2 := r.pending(ep); len(p2) > 0 {
				if silent2, _, _ := w.tick(); silent2 >= silent {
					res.ConvergeWait = time.Since(w0)
					res.Violation = fmt.Sprintf("faults stopped %.1fs ago; the copier has been completely idle for %.1fs (no call to source, destination or queue; %d calls in this handler's lifetime; its loop interval is %v) while work is pending: %s",
						time.Since(w0).Seconds(), silent2.Seconds(), calls, queueSyncInterval, strings.Join(p2, "; "))
					return
				}
			}
		}
		if time.Since(w0) > hardCap {
			res.Inconclusive = fmt.Sprintf("not converged %.0fs after the last fault but the copier is not provably idle (silent for %.1fs, calls in flight %d); pending: %s",
				time.Since(w0).Seconds(), silent.Seconds(), infl, strings.Join(p, "; "))
			return
		}
		time.Sleep(sleep)
		if sleep < 5*time.Millisecond {
			sleep *= 2
		}
	}
	res.ConvergeWait = time.Since(w0)
	// final state
	r.checkAllDurable(ep, "at the end")
	r.checkStores(ep, "at the end")
	for _, ref := range r.ackedSorted() {
		if _, ok := ep.from.RawGet(blob.MustParse(ref)); !ok {
			r.violate("at the end: acknowledged blob %s is no longer in the source", ref)
		}
	}
	if rows := ep.q.Dump(); len(rows) > 0 {
		for k := range rows {
			r.mu.Lock()
			acked, del, lost := r.acked[k], ep.deletes[k], ep.setLost[k]
			r.mu.Unlock()
			switch {
			case del:
				r.label("final/row-left:queue-delete-was-called-and-failed")
			case lost || !acked:
				r.label("final/row-left:row-written-but-enqueue-reported-error")
			default:
				r.violate("at the end: queue row %s is left although the blob is delivered and queue.Delete was never called", k) // unreachable: pending() waits for this
			}
		}
	} else {
		r.label("final/queue-empty")
	}
	r.mu.Lock()
	nerr := len(r.errored)
	r.mu.Unlock()
	if nerr > 0 {
		r.label("final/some-blobs-only-ever-reported-error(excused)")
	}
	switch w := res.ConvergeWait; {
	case w < 100*time.Millisecond:
		r.label("converged/<100ms")
	case w < time.Second:
		r.label("converged/<1s")
	case w < 6*time.Second:
		r.label("converged/<6s(one loop interval)")
	default:
		r.label("converged/>=6s")
	}
	res.Violation = r.firstViolation()
	return
}

func (r *runner) stopWith(err error) {
	var st *stop
	if errors.As(err, &st) {
		r.res.Violation = st.violation
		r.res.Inconclusive = st.inconclusive
		return
	}
	r.res.Inconclusive = "harness: " + err.Error()
}

func hash64(s string) uint64 {
	var h uint64 = 14695981039346656037
	for i := 0; i < len(s); i++ {
		h ^= uint64(s[i])
		h *= 1099511628211
	}
	return h
}

func (res *result) describe(sc *scenario) string {
	j, _ := json.MarshalIndent(sc.dump(), "", " ")
	return fmt.Sprintf("scenario: %s\nexecution:\n  %s", j, strings.Join(res.Trace, "\n  "))
}

var _ = sorted.ErrNotFound
